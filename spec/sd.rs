// systemd's ExecStart= parsing, as documented in systemd.syntax(7) / systemd.service(5) ("Command lines"), written as a
// specification over sequences of characters, plus the escaping theorem of C17.  Nothing in this file is derived from
// /repo: the escaper is a universally quantified function `esc` that only has to satisfy `char_ok` for every character.
//
// Stages (in the order systemd applies them to ExecStart=):
//   1. the line is split into words at unquoted whitespace; quotes are removed; C-style escapes are decoded
//      (\a \b \f \n \r \t \v \\ \" \' \s \xXX (one raw byte, accepted below 0x80 only) \uXXXX (a code point, UTF-8 encoded); \nnn octal and \UXXXXXXXX are documented too but are treated as
//      "not accepted" here, which only makes the oracle stricter);  a word that is a lone unquoted `;` separates commands;
//   2. in every word `%%` becomes `%`; any other `%x` is a specifier (expanded to something else);
//   3. in every word `$$` becomes `$`; any other `$` starts a variable reference.
// Characters are handled as code points (u32) after decoding, so that no char conversions are needed.

pub open spec fn is_ws(c: char) -> bool { c == ' ' || c == '\t' || c == '\n' || c == '\r' }

pub open spec fn hexval(c: char) -> Option<int> {
  if '0' <= c && c <= '9' { Some(c as int - '0' as int) }
  else if 'a' <= c && c <= 'f' { Some(c as int - 'a' as int + 10) }
  else if 'A' <= c && c <= 'F' { Some(c as int - 'A' as int + 10) }
  else { None }
}

pub open spec fn valid_scalar(v: int) -> bool { 0 < v && v <= 0x10FFFF && !(0xD800 <= v && v <= 0xDFFF) }

pub enum Tok { Lit(int), Sep, Quote, Bad }

// the value of n hex digits starting at s[i], None if one of them is not a hex digit or the text is too short
pub open spec fn hexrun(s: Seq<char>, i: int, n: int) -> Option<int>
  decreases n
{
  if n <= 0 { Some(0) }
  else if i + n > s.len() { None }
  else {
    match (hexrun(s, i, n - 1), hexval(s[i + n - 1])) { (Some(a), Some(b)) => Some(a * 16 + b), _ => None }
  }
}

// one token at position i, outside quotes: (token, index after it)
pub open spec fn tok(s: Seq<char>, i: int) -> (Tok, int)
  recommends 0 <= i < s.len()
{
  let c = s[i];
  if is_ws(c) { (Tok::Sep, i + 1) }
  else if c == '\'' || c == '"' { (Tok::Quote, i + 1) }
  else if c == '\\' {
    if i + 1 >= s.len() { (Tok::Bad, i + 1) } else {
      let d = s[i + 1];
      if d == '\\' { (Tok::Lit('\\' as int), i + 2) }
      else if d == 's' { (Tok::Lit(' ' as int), i + 2) }
      else if d == 'n' { (Tok::Lit(10), i + 2) }
      else if d == 'r' { (Tok::Lit(13), i + 2) }
      else if d == 't' { (Tok::Lit(9), i + 2) }
      else if d == 'a' { (Tok::Lit(7), i + 2) }
      else if d == 'b' { (Tok::Lit(8), i + 2) }
      else if d == 'f' { (Tok::Lit(12), i + 2) }
      else if d == 'v' { (Tok::Lit(11), i + 2) }
      else if d == '"' { (Tok::Lit('"' as int), i + 2) }
      else if d == '\'' { (Tok::Lit('\'' as int), i + 2) }
      else if d == 'x' {
        // \xHH denotes ONE RAW BYTE (systemd's cunescape marks it "eight bit" and does not UTF-8-encode it): for HH >= 0x80 that byte
        // is not a character by itself, so no character is read back byte for byte -> not accepted here
        match hexrun(s, i + 2, 2) { Some(v) => if v == 0 || v >= 128 { (Tok::Bad, i + 4) } else { (Tok::Lit(v), i + 4) }, None => (Tok::Bad, i + 2) }
      }
      else if d == 'u' {
        match hexrun(s, i + 2, 4) { Some(v) => if !valid_scalar(v) { (Tok::Bad, i + 6) } else { (Tok::Lit(v), i + 6) }, None => (Tok::Bad, i + 2) }
      }
      else { (Tok::Bad, i + 2) }
    }
  }
  else { (Tok::Lit(c as int), i + 1) }
}

pub proof fn lemma_tok_advances(s: Seq<char>, i: int)
  requires 0 <= i < s.len()
  ensures tok(s, i).1 > i, tok(s, i).0 is Lit ==> tok(s, i).1 <= s.len()
{
  let c = s[i];
  if c == '\\' && i + 1 < s.len() {
    let d = s[i + 1];
    if d == 'x' { if hexrun(s, i + 2, 2) is Some { assert(i + 4 <= s.len()); } }
    if d == 'u' { if hexrun(s, i + 2, 4) is Some { assert(i + 6 <= s.len()); } }
  }
}

pub open spec fn skip_ws(s: Seq<char>, i: int) -> int
  decreases s.len() - i
{
  if 0 <= i < s.len() && is_ws(s[i]) { skip_ws(s, i + 1) } else { i }
}

// read one word starting at i (outside quotes): None if a quote or an undecodable escape occurs, else the decoded word
// and the index of the separator (or end of text) that ends it
pub open spec fn read_word(s: Seq<char>, i: int) -> Option<(Seq<int>, int)>
  decreases s.len() - i
{
  if i < 0 || i >= s.len() { Some((Seq::empty(), i)) } else {
    let (t, j) = tok(s, i);
    match t {
      Tok::Lit(c) => if j > i { match read_word(s, j) { Some((w, end)) => Some((seq![c] + w, end)), None => None } } else { None },
      Tok::Sep => Some((Seq::empty(), i)),
      _ => None,
    }
  }
}

// a word that is exactly an unquoted `;` is systemd's command separator
pub open spec fn lone_semicolon(s: Seq<char>, k: int) -> bool {
  0 <= k < s.len() && s[k] == ';' && (k + 1 >= s.len() || is_ws(s[k + 1]))
}

// all words of the text from i on
pub open spec fn words(s: Seq<char>, i: int) -> Option<Seq<Seq<int>>>
  decreases s.len() - i
{
  let k = skip_ws(s, i);
  if k < i || k >= s.len() { Some(Seq::empty()) }
  else if lone_semicolon(s, k) { None }
  else {
    match read_word(s, k) {
      None => None,
      Some((w, j)) => if j > k && j <= s.len() { match words(s, j) { None => None, Some(rest) => Some(seq![w] + rest) } } else { None },
    }
  }
}

// stage 2 / 3 on one decoded word: `dd` is '%' or '$'; a doubled character stands for itself, a single one is not literal
pub open spec fn undouble(w: Seq<int>, dd: int) -> Option<Seq<int>>
  decreases w.len()
{
  if w.len() == 0 { Some(Seq::empty()) }
  else if w[0] == dd {
    if w.len() >= 2 && w[1] == dd { match undouble(w.skip(2), dd) { Some(r) => Some(seq![dd] + r), None => None } } else { None }
  }
  else { match undouble(w.skip(1), dd) { Some(r) => Some(seq![w[0]] + r), None => None } }
}
pub open spec fn arg_of(w: Seq<int>) -> Option<Seq<int>> {
  match undouble(w, '%' as int) { Some(x) => undouble(x, '$' as int), None => None }
}

pub open spec fn codes(t: Seq<char>) -> Seq<int> { t.map_values(|c: char| c as int) }

// ---------------------------------------------------------------------------------------------------------------------
// what an escaper must guarantee for ONE character: its image consists of complete literal tokens only, and after the
// two expansion stages it is exactly that character; and the pattern `;` is not left as a lone semicolon
// ---------------------------------------------------------------------------------------------------------------------
pub open spec fn lits(e: Seq<char>, i: int) -> Option<Seq<int>>
  decreases e.len() - i
{
  if i < 0 || i >= e.len() { if i == e.len() { Some(Seq::empty()) } else { None } } else {
    let (t, j) = tok(e, i);
    match t { Tok::Lit(c) => if j > i && j <= e.len() { match lits(e, j) { Some(r) => Some(seq![c] + r), None => None } } else { None }, _ => None }
  }
}
pub open spec fn char_ok(c: char, e: Seq<char>) -> bool {
  &&& e.len() > 0
  &&& (c == ';' ==> e != seq![';'])
  &&& match lits(e, 0) {
        None => false,
        Some(l) => arg_of(l) == Some(seq![c as int]),
      }
}

pub open spec fn esc_str(esc: spec_fn(char) -> Seq<char>, t: Seq<char>) -> Seq<char>
  decreases t.len()
{
  if t.len() == 0 { Seq::empty() } else { esc_str(esc, t.drop_last()) + esc(t.last()) }
}

pub open spec fn all_ok(esc: spec_fn(char) -> Seq<char>) -> bool { forall|c: char| c != '\0' ==> char_ok(c, #[trigger] esc(c)) }
pub open spec fn no_nul(t: Seq<char>) -> bool { forall|i: int| 0 <= i < t.len() ==> t[i] != '\0' }

// the literal code points the escaped pattern decodes to in stage 1 (before % / $ un-doubling)
pub open spec fn lall(esc: spec_fn(char) -> Seq<char>, t: Seq<char>) -> Seq<int>
  decreases t.len()
{
  if t.len() == 0 { Seq::empty() } else { lall(esc, t.drop_last()) + lits(esc(t.last()), 0).unwrap() }
}

proof fn lemma_hexrun_local(pre: Seq<char>, e: Seq<char>, rest: Seq<char>, a: int, n: int)
  requires 0 <= a, 0 <= n, a + n <= e.len()
  ensures hexrun(pre + e + rest, pre.len() + a, n) == hexrun(e, a, n)
  decreases n
{
  let s = pre + e + rest;
  if n > 0 {
    lemma_hexrun_local(pre, e, rest, a, n - 1);
    assert(s[pre.len() + a + n - 1] == e[a + n - 1]);
  }
}

// a literal token of e is the same token wherever e is embedded
proof fn lemma_tok_local(pre: Seq<char>, e: Seq<char>, rest: Seq<char>, i: int)
  requires 0 <= i < e.len(), tok(e, i).0 is Lit, tok(e, i).1 <= e.len()
  ensures tok(pre + e + rest, pre.len() + i) == (tok(e, i).0, pre.len() + tok(e, i).1)
{
  let s = pre + e + rest; let k = pre.len() as int;
  assert(s[k + i] == e[i]);
  let c = e[i];
  if c == '\\' {
    assert(i + 1 < e.len());
    assert(s[k + i + 1] == e[i + 1]);
    let d = e[i + 1];
    if d == 'x' { assert(hexrun(e, i + 2, 2) is Some); assert(i + 4 <= e.len()); lemma_hexrun_local(pre, e, rest, i + 2, 2); }
    if d == 'u' { assert(hexrun(e, i + 2, 4) is Some); assert(i + 6 <= e.len()); lemma_hexrun_local(pre, e, rest, i + 2, 4); }
  }
}

// Lemma A: reading a word through an embedded image that consists of complete literal tokens
proof fn lemma_lits_then_read(pre: Seq<char>, e: Seq<char>, rest: Seq<char>, i: int)
  requires 0 <= i <= e.len(), lits(e, i) is Some
  ensures read_word(pre + e + rest, pre.len() + i) == (match read_word(pre + e + rest, (pre.len() + e.len()) as int) {
            Some((w, end)) => Some((lits(e, i).unwrap() + w, end)), None => None })
  decreases e.len() - i
{
  let s = pre + e + rest; let k = pre.len() as int;
  if i < e.len() {
    let (t, j) = tok(e, i);
    lemma_tok_local(pre, e, rest, i);
    lemma_lits_then_read(pre, e, rest, j);
    match read_word(s, k + e.len()) {
      Some((w, end)) => { let c = t->Lit_0; assert(seq![c] + (lits(e, j).unwrap() + w) =~= (seq![c] + lits(e, j).unwrap()) + w); },
      None => {},
    }
  } else {
    match read_word(s, k + e.len()) { Some((w, end)) => { assert(Seq::<int>::empty() + w =~= w); }, None => {} }
  }
}

// Lemma B: the whole escaped pattern
proof fn lemma_pattern_read(esc: spec_fn(char) -> Seq<char>, t: Seq<char>, pre: Seq<char>, post: Seq<char>)
  requires all_ok(esc), no_nul(t)
  ensures read_word(pre + esc_str(esc, t) + post, pre.len() as int) == (match read_word(pre + esc_str(esc, t) + post, (pre.len() + esc_str(esc, t).len()) as int) {
            Some((w, end)) => Some((lall(esc, t) + w, end)), None => None })
  decreases t.len()
{
  let big = esc_str(esc, t); let s = pre + big + post; let k = pre.len() as int;
  if t.len() == 0 {
    match read_word(s, k) { Some((w, end)) => { assert(Seq::<int>::empty() + w =~= w); }, None => {} }
  } else {
    let t1 = t.drop_last(); let c = t.last(); let e = esc(c); let big1 = esc_str(esc, t1);
    assert(char_ok(c, e));
    assert(no_nul(t1)) by { assert forall|i: int| 0 <= i < t1.len() implies t1[i] != '\0' by { assert(t1[i] == t[i]); } }
    // view 1: pre + big1 + (e + post)
    lemma_pattern_read(esc, t1, pre, e + post);
    assert(pre + big1 + (e + post) =~= s);
    // view 2: (pre + big1) + e + post
    lemma_lits_then_read(pre + big1, e, post, 0);
    assert((pre + big1) + e + post =~= s);
    assert(big.len() == big1.len() + e.len());
    match read_word(s, k + big.len()) {
      Some((w, end)) => { assert(lall(esc, t1) + (lits(e, 0).unwrap() + w) =~= (lall(esc, t1) + lits(e, 0).unwrap()) + w); },
      None => {},
    }
  }
}

// Lemma C: un-doubling distributes over concatenation when the first part is complete
proof fn lemma_undouble_concat(a: Seq<int>, b: Seq<int>, dd: int)
  requires undouble(a, dd) is Some
  ensures undouble(a + b, dd) == (match undouble(b, dd) { Some(y) => Some(undouble(a, dd).unwrap() + y), None => None })
  decreases a.len()
{
  if a.len() == 0 {
    assert(a + b =~= b);
    match undouble(b, dd) { Some(y) => { assert(Seq::<int>::empty() + y =~= y); }, None => {} }
  } else if a[0] == dd {
    assert(a.len() >= 2 && a[1] == dd);
    lemma_undouble_concat(a.skip(2), b, dd);
    assert((a + b).skip(2) =~= a.skip(2) + b);
    match undouble(b, dd) { Some(y) => { assert(seq![dd] + (undouble(a.skip(2), dd).unwrap() + y) =~= (seq![dd] + undouble(a.skip(2), dd).unwrap()) + y); }, None => {} }
  } else {
    lemma_undouble_concat(a.skip(1), b, dd);
    assert((a + b).skip(1) =~= a.skip(1) + b);
    match undouble(b, dd) { Some(y) => { assert(seq![a[0]] + (undouble(a.skip(1), dd).unwrap() + y) =~= (seq![a[0]] + undouble(a.skip(1), dd).unwrap()) + y); }, None => {} }
  }
}

pub open spec fn xall(esc: spec_fn(char) -> Seq<char>, t: Seq<char>) -> Seq<int>
  decreases t.len()
{
  if t.len() == 0 { Seq::empty() } else { xall(esc, t.drop_last()) + undouble(lits(esc(t.last()), 0).unwrap(), '%' as int).unwrap() }
}

proof fn lemma_pattern_arg(esc: spec_fn(char) -> Seq<char>, t: Seq<char>)
  requires all_ok(esc), no_nul(t)
  ensures undouble(lall(esc, t), '%' as int) == Some(xall(esc, t)), undouble(xall(esc, t), '$' as int) == Some(codes(t)), arg_of(lall(esc, t)) == Some(codes(t))
  decreases t.len()
{
  if t.len() == 0 {
    assert(codes(t) =~= Seq::<int>::empty());
  } else {
    let t1 = t.drop_last(); let c = t.last(); let e = esc(c);
    assert(char_ok(c, e));
    assert(no_nul(t1)) by { assert forall|i: int| 0 <= i < t1.len() implies t1[i] != '\0' by { assert(t1[i] == t[i]); } }
    lemma_pattern_arg(esc, t1);
    let l = lits(e, 0).unwrap(); let x = undouble(l, '%' as int).unwrap();
    lemma_undouble_concat(lall(esc, t1), l, '%' as int);
    lemma_undouble_concat(xall(esc, t1), x, '$' as int);
    assert(codes(t) =~= codes(t1) + seq![c as int]);
  }
}

//@ C17 | THEOREM: for every escaper that is correct on single characters, every non-empty NUL-free pattern, embedded at a word start and followed by whitespace or the end of the line, is read back by systemd's rules as one word that expands to exactly the pattern
pub proof fn theorem_pattern(esc: spec_fn(char) -> Seq<char>, t: Seq<char>, pre: Seq<char>, post: Seq<char>)
  requires all_ok(esc), no_nul(t), t.len() > 0, post.len() == 0 || is_ws(post[0])
  ensures ({
    let s = pre + esc_str(esc, t) + post; let k = pre.len() as int;
    &&& !lone_semicolon(s, k)
    &&& read_word(s, k) is Some
    &&& read_word(s, k).unwrap().1 == k + esc_str(esc, t).len()
    &&& read_word(s, k).unwrap().1 > k
    &&& arg_of(read_word(s, k).unwrap().0) == Some(codes(t))
  })
{
  let big = esc_str(esc, t); let s = pre + big + post; let k = pre.len() as int;
  lemma_pattern_read(esc, t, pre, post);
  lemma_pattern_arg(esc, t);
  // the word ends right after the pattern
  assert(read_word(s, k + big.len()) == Some((Seq::<int>::empty(), k + big.len()))) by {
    if post.len() > 0 { assert(s[k + big.len()] == post[0]); }
  }
  assert(lall(esc, t) + Seq::<int>::empty() =~= lall(esc, t));
  // the pattern is not empty text, and it is not a lone semicolon
  let t1 = t.drop_last(); let c = t.last(); let e = esc(c);
  assert(char_ok(c, e));
  assert(big.len() >= e.len());
  lemma_first_not_semicolon(esc, t, pre, post);
}

proof fn lemma_esc_str_first(esc: spec_fn(char) -> Seq<char>, t: Seq<char>)
  requires t.len() > 0
  ensures esc_str(esc, t) =~= esc(t[0]) + esc_str(esc, t.skip(1))
  decreases t.len()
{
  if t.len() == 1 {
    assert(t.drop_last() =~= Seq::<char>::empty()); assert(t.skip(1) =~= Seq::<char>::empty());
    assert(esc_str(esc, t.drop_last()) =~= Seq::<char>::empty());
  } else {
    lemma_esc_str_first(esc, t.drop_last());
    assert(t.drop_last().skip(1) =~= t.skip(1).drop_last());
    assert(t.drop_last()[0] == t[0]);
    assert(t.skip(1).last() == t.last());
  }
}

proof fn lemma_semicolon_arg()
  ensures arg_of(seq![';' as int]) == Some(seq![';' as int])
{
  reveal_with_fuel(undouble, 3);
  let m = seq![';' as int];
  assert(m.skip(1) =~= Seq::<int>::empty());
  assert(seq![m[0]] + Seq::<int>::empty() =~= m);
}

// the first image starts the text of the word; a raw `;` there is a complete literal token, so what follows it inside the
// image is the start of another literal token, which is never whitespace; and no image is exactly ";"
proof fn lemma_first_not_semicolon(esc: spec_fn(char) -> Seq<char>, t: Seq<char>, pre: Seq<char>, post: Seq<char>)
  requires all_ok(esc), no_nul(t), t.len() > 0
  ensures !lone_semicolon(pre + esc_str(esc, t) + post, pre.len() as int)
{
  let big = esc_str(esc, t); let s = pre + big + post; let k = pre.len() as int;
  let c = t[0]; let e = esc(c);
  assert(char_ok(c, e));
  lemma_esc_str_first(esc, t);
  assert(s[k] == e[0]);
  if e[0] == ';' {
    if e.len() == 1 {
      assert(e =~= seq![';']);
      reveal_with_fuel(lits, 3);
      assert(lits(e, 0).unwrap() =~= seq![';' as int]);
      lemma_semicolon_arg();
      assert(c as int == ';' as int);
      assert(false);
    } else {
      assert(s[k + 1] == e[1]);
      reveal_with_fuel(lits, 2);
      assert(tok(e, 1).0 is Lit);
      assert(!is_ws(e[1]));
    }
  }
}

// =====================================================================================================================
// Executable twins of the specification (verified against it), compiled into the enumeration driver of C17
// =====================================================================================================================
pub open spec fn ints(v: Seq<u32>) -> Seq<int> { v.map_values(|x: u32| x as int) }
pub open spec fn wviews(v: Seq<Vec<u32>>) -> Seq<Seq<int>> { v.map_values(|w: Vec<u32>| ints(w@)) }

pub enum TokE { Lit(u32), Sep, Quote, Bad }
pub open spec fn tok_view(t: TokE) -> Tok {
  match t { TokE::Lit(v) => Tok::Lit(v as int), TokE::Sep => Tok::Sep, TokE::Quote => Tok::Quote, TokE::Bad => Tok::Bad }
}

pub fn is_ws_exec(c: char) -> (r: bool)
  ensures r == is_ws(c)
{ c == ' ' || c == '\t' || c == '\n' || c == '\r' }

pub fn hexval_exec(c: char) -> (r: Option<u32>)
  ensures match r { Some(v) => hexval(c) == Some(v as int) && v < 16, None => hexval(c) is None }
{
  if '0' <= c && c <= '9' { Some(c as u32 - '0' as u32) }
  else if 'a' <= c && c <= 'f' { Some(c as u32 - 'a' as u32 + 10) }
  else if 'A' <= c && c <= 'F' { Some(c as u32 - 'A' as u32 + 10) }
  else { None }
}

pub fn hexrun_exec(s: &Vec<char>, i: usize, n: usize) -> (r: Option<u32>)
  requires n <= 4, i <= s.len()
  ensures match r { Some(v) => hexrun(s@, i as int, n as int) == Some(v as int), None => hexrun(s@, i as int, n as int) is None }
{
  if n > s.len() - i {
    proof { lemma_hexrun_short(s@, i as int, n as int); }
    return None;
  }
  let mut v: u32 = 0;
  let mut k: usize = 0;
  while k < n
    invariant k <= n, n <= 4, i + n <= s.len(), hexrun(s@, i as int, k as int) == Some(v as int), v < pow16(k as int),
    decreases n - k
  {
    match hexval_exec(s[i + k]) {
      None => {
        proof { lemma_hexrun_none(s@, i as int, k as int + 1, n as int); }
        return None;
      },
      Some(d) => {
        proof { assert(pow16(k as int + 1) == 16 * pow16(k as int)); assert(pow16(k as int) <= 4096) by { reveal_with_fuel(pow16, 5); } }
        v = v * 16 + d;
        k = k + 1;
      }
    }
  }
  Some(v)
}
pub open spec fn pow16(k: int) -> int decreases k { if k <= 0 { 1 } else { 16 * pow16(k - 1) } }
proof fn lemma_hexrun_short(s: Seq<char>, i: int, n: int)
  requires i + n > s.len(), n > 0
  ensures hexrun(s, i, n) is None
{}
// once a prefix of the run is None, every longer run is None
proof fn lemma_hexrun_none(s: Seq<char>, i: int, k: int, n: int)
  requires 0 < k <= n, hexrun(s, i, k) is None
  ensures hexrun(s, i, n) is None
  decreases n - k
{
  if k < n { lemma_hexrun_none(s, i, k + 1, n); }
}

pub fn tok_exec(s: &Vec<char>, i: usize) -> (r: (TokE, usize))
  requires i < s.len(), s.len() < 0x7fff_ffff
  ensures tok_view(r.0) == tok(s@, i as int).0, r.1 as int == tok(s@, i as int).1
{
  let c = s[i];
  if is_ws_exec(c) { (TokE::Sep, i + 1) }
  else if c == '\'' || c == '"' { (TokE::Quote, i + 1) }
  else if c == '\\' {
    if i + 1 >= s.len() { (TokE::Bad, i + 1) } else {
      let d = s[i + 1];
      if d == '\\' { (TokE::Lit('\\' as u32), i + 2) }
      else if d == 's' { (TokE::Lit(' ' as u32), i + 2) }
      else if d == 'n' { (TokE::Lit(10), i + 2) }
      else if d == 'r' { (TokE::Lit(13), i + 2) }
      else if d == 't' { (TokE::Lit(9), i + 2) }
      else if d == 'a' { (TokE::Lit(7), i + 2) }
      else if d == 'b' { (TokE::Lit(8), i + 2) }
      else if d == 'f' { (TokE::Lit(12), i + 2) }
      else if d == 'v' { (TokE::Lit(11), i + 2) }
      else if d == '"' { (TokE::Lit('"' as u32), i + 2) }
      else if d == '\'' { (TokE::Lit('\'' as u32), i + 2) }
      else if d == 'x' {
        match hexrun_exec(s, i + 2, 2) { Some(v) => if v == 0 || v >= 128 { (TokE::Bad, i + 4) } else { (TokE::Lit(v), i + 4) }, None => (TokE::Bad, i + 2) }
      }
      else if d == 'u' {
        match hexrun_exec(s, i + 2, 4) {
          Some(v) => if !(0 < v && v <= 0x10FFFF && !(0xD800 <= v && v <= 0xDFFF)) { (TokE::Bad, i + 6) } else { (TokE::Lit(v), i + 6) },
          None => (TokE::Bad, i + 2) }
      }
      else { (TokE::Bad, i + 2) }
    }
  }
  else { (TokE::Lit(c as u32), i + 1) }
}

pub fn lits_exec(e: &Vec<char>) -> (r: Option<Vec<u32>>)
  requires e.len() < 0x7fff_ffff
  ensures match r { Some(l) => lits(e@, 0) == Some(ints(l@)), None => lits(e@, 0) is None }
{
  let mut acc: Vec<u32> = Vec::new();
  let mut i: usize = 0;
  proof { assert(ints(acc@) =~= Seq::<int>::empty()); match lits(e@, 0) { Some(r0) => { assert(Seq::<int>::empty() + r0 =~= r0); }, None => {} } }
  while i < e.len()
    invariant i <= e.len(), e.len() < 0x7fff_ffff,
      lits(e@, 0) == (match lits(e@, i as int) { Some(r0) => Some(ints(acc@) + r0), None => None }),
    decreases e.len() - i
  {
    let (t, j) = tok_exec(e, i);
    match t {
      TokE::Lit(c) => {
        if j > i && j <= e.len() {
          proof {
            let a0 = ints(acc@);
            assert(ints(acc@.push(c)) =~= a0.push(c as int));
            match lits(e@, j as int) { Some(r1) => { assert(a0 + (seq![c as int] + r1) =~= a0.push(c as int) + r1); }, None => {} }
          }
          acc.push(c);
          i = j;
        } else { return None; }
      },
      _ => { return None; }
    }
  }
  proof { assert(ints(acc@) + Seq::<int>::empty() =~= ints(acc@)); }
  Some(acc)
}

pub fn undouble_exec(w: &Vec<u32>, dd: u32) -> (r: Option<Vec<u32>>)
  ensures match r { Some(x) => undouble(ints(w@), dd as int) == Some(ints(x@)), None => undouble(ints(w@), dd as int) is None }
{
  let mut acc: Vec<u32> = Vec::new();
  let mut i: usize = 0;
  let ghost wi = ints(w@);
  proof { assert(wi.skip(0) =~= wi); assert(ints(acc@) =~= Seq::<int>::empty()); match undouble(wi, dd as int) { Some(r0) => { assert(Seq::<int>::empty() + r0 =~= r0); }, None => {} } }
  while i < w.len()
    invariant i <= w.len(), wi == ints(w@),
      undouble(wi, dd as int) == (match undouble(wi.skip(i as int), dd as int) { Some(r0) => Some(ints(acc@) + r0), None => None }),
    decreases w.len() - i
  {
    let ghost rest = wi.skip(i as int); let ghost a0 = ints(acc@);
    proof { assert(rest.len() == w.len() - i); assert(rest[0] == w@[i as int] as int); }
    if w[i] == dd {
      if i + 1 < w.len() && w[i + 1] == dd {
        proof {
          assert(rest[1] == w@[i as int + 1] as int);
          assert(rest.skip(2) =~= wi.skip(i as int + 2));
          assert(ints(acc@.push(dd)) =~= a0.push(dd as int));
          match undouble(rest.skip(2), dd as int) { Some(r1) => { assert(a0 + (seq![dd as int] + r1) =~= a0.push(dd as int) + r1); }, None => {} }
        }
        acc.push(dd);
        i = i + 2;
      } else {
        proof { if rest.len() >= 2 { assert(rest[1] == w@[i as int + 1] as int); } }
        return None;
      }
    } else {
      proof {
        assert(rest.skip(1) =~= wi.skip(i as int + 1));
        assert(ints(acc@.push(w@[i as int])) =~= a0.push(rest[0]));
        match undouble(rest.skip(1), dd as int) { Some(r1) => { assert(a0 + (seq![rest[0]] + r1) =~= a0.push(rest[0]) + r1); }, None => {} }
      }
      acc.push(w[i]);
      i = i + 1;
    }
  }
  proof { assert(wi.skip(w.len() as int) =~= Seq::<int>::empty()); assert(ints(acc@) + Seq::<int>::empty() =~= ints(acc@)); }
  Some(acc)
}

pub fn arg_of_exec(w: &Vec<u32>) -> (r: Option<Vec<u32>>)
  ensures match r { Some(x) => arg_of(ints(w@)) == Some(ints(x@)), None => arg_of(ints(w@)) is None }
{
  match undouble_exec(w, '%' as u32) { Some(x) => undouble_exec(&x, '$' as u32), None => None }
}

//@ C17 | the executable per-character test is exactly the specification char_ok (it is what the exhaustive enumeration over all Unicode scalar values evaluates on the real escape_one_char)
pub fn char_ok_exec(c: char, e: &Vec<char>) -> (r: bool)
  requires e.len() < 0x7fff_ffff
  ensures r == char_ok(c, e@)
{
  if e.len() == 0 { return false; }
  if c == ';' && e.len() == 1 && e[0] == ';' { proof { assert(e@ =~= seq![';']); } return false; }
  proof { if c == ';' && e@ == seq![';'] { assert(e@.len() == 1 && e@[0] == ';'); } }
  match lits_exec(e) {
    None => false,
    Some(l) => match arg_of_exec(&l) {
      None => false,
      Some(a) => {
        let ok = a.len() == 1 && a[0] == c as u32;
        proof {
          if ok { assert(ints(a@) =~= seq![c as int]); }
          else if ints(a@) == seq![c as int] { assert(ints(a@).len() == 1); assert(ints(a@)[0] == c as int); }
        }
        ok
      }
    }
  }
}

pub fn read_word_exec(s: &Vec<char>, i0: usize) -> (r: Option<(Vec<u32>, usize)>)
  requires i0 <= s.len(), s.len() < 0x7fff_ffff
  ensures match r { Some((w, end)) => read_word(s@, i0 as int) == Some((ints(w@), end as int)) && i0 <= end <= s.len(), None => read_word(s@, i0 as int) is None }
{
  let mut acc: Vec<u32> = Vec::new();
  let mut i: usize = i0;
  proof { assert(ints(acc@) =~= Seq::<int>::empty()); match read_word(s@, i0 as int) { Some((w0, e0)) => { assert(Seq::<int>::empty() + w0 =~= w0); }, None => {} } }
  while i < s.len()
    invariant i0 <= i <= s.len(), s.len() < 0x7fff_ffff,
      read_word(s@, i0 as int) == (match read_word(s@, i as int) { Some((w0, e0)) => Some((ints(acc@) + w0, e0)), None => None }),
    decreases s.len() - i
  {
    let (t, j) = tok_exec(s, i);
    match t {
      TokE::Lit(c) => {
        proof { lemma_tok_advances(s@, i as int); }
        proof {
          let a0 = ints(acc@);
          assert(ints(acc@.push(c)) =~= a0.push(c as int));
          match read_word(s@, j as int) { Some((w1, e1)) => { assert(a0 + (seq![c as int] + w1) =~= a0.push(c as int) + w1); }, None => {} }
        }
        acc.push(c);
        i = j;
      },
      TokE::Sep => {
        proof { assert(ints(acc@) + Seq::<int>::empty() =~= ints(acc@)); }
        return Some((acc, i));
      },
      _ => { return None; }
    }
  }
  proof { assert(ints(acc@) + Seq::<int>::empty() =~= ints(acc@)); }
  Some((acc, i))
}

pub fn skip_ws_exec(s: &Vec<char>, i0: usize) -> (r: usize)
  requires i0 <= s.len()
  ensures r as int == skip_ws(s@, i0 as int), i0 <= r <= s.len()
{
  let mut i = i0;
  while i < s.len() && is_ws_exec(s[i])
    invariant i0 <= i <= s.len(), skip_ws(s@, i0 as int) == skip_ws(s@, i as int),
    decreases s.len() - i
  { i = i + 1; }
  i
}

//@ C17 | the executable word splitter is exactly the specification `words` (it decodes the ExecStart line of the unit text that the real build_service_text produces)
pub fn words_exec(s: &Vec<char>) -> (r: Option<Vec<Vec<u32>>>)
  requires s.len() < 0x7fff_ffff
  ensures match r { Some(ws) => words(s@, 0) == Some(wviews(ws@)), None => words(s@, 0) is None }
{
  let mut acc: Vec<Vec<u32>> = Vec::new();
  let mut i: usize = 0;
  proof { assert(wviews(acc@) =~= Seq::<Seq<int>>::empty()); match words(s@, 0) { Some(r0) => { assert(Seq::<Seq<int>>::empty() + r0 =~= r0); }, None => {} } }
  loop
    invariant i <= s.len(), s.len() < 0x7fff_ffff,
      words(s@, 0) == (match words(s@, i as int) { Some(r0) => Some(wviews(acc@) + r0), None => None }),
    decreases s.len() - i
  {
    let k = skip_ws_exec(s, i);
    if k >= s.len() {
      proof { assert(wviews(acc@) + Seq::<Seq<int>>::empty() =~= wviews(acc@)); }
      return Some(acc);
    }
    if s[k] == ';' && (k + 1 >= s.len() || is_ws_exec(s[k + 1])) { return None; }
    match read_word_exec(s, k) {
      None => { return None; },
      Some((w, j)) => {
        if j > k && j <= s.len() {
          proof {
            let a0 = wviews(acc@);
            assert(wviews(acc@.push(w)) =~= a0.push(ints(w@)));
            match words(s@, j as int) { Some(r1) => { assert(a0 + (seq![ints(w@)] + r1) =~= a0.push(ints(w@)) + r1); }, None => {} }
          }
          acc.push(w);
          i = j;
        } else { return None; }
      }
    }
  }
}
