// Enumeration driver of C17 (plain Rust, compiled together with the verified twins of spec/sd.rs by `verus --compile`).
// It evaluates, on the REAL functions of src/udev_utils.rs (module udev_utils below, verbatim text):
//   1. char_ok_exec(c, escape_one_char(c)) for EVERY Unicode scalar value except NUL            (exhaustive, complete for that function)
//   2. end to end: the ExecStart line of build_service_text(patterns), decoded with the verified words_exec / arg_of_exec,
//      must give the fixed arguments, `--exclude p` per pattern byte for byte, and `--dev-file /%I`:
//      every single-scalar pattern (exhaustive), every pair and triple over the syntax-relevant characters, seeded random lists.
use crate::sd::{char_ok_exec, words_exec, arg_of_exec};

/// JSON string literal, ASCII only: everything else is written as <U+XXXX>
fn jstr(s: &str) -> String {
  let mut o = String::from("\"");
  for c in s.chars() { if c == '"' { o.push_str("\\\""); } else if c == '\\' { o.push_str("\\\\"); } else if (c as u32) >= 0x20 && (c as u32) < 0x7f { o.push(c); } else { o.push_str(&format!("<U+{:04X}>", c as u32)); } }
  o.push('"'); o
}
fn codes(s: &str) -> Vec<u32> { s.chars().map(|c| c as u32).collect() }
fn show(v: &Vec<u32>) -> String { format!("[{}]", v.iter().map(|x| x.to_string()).collect::<Vec<_>>().join(",")) }
fn show_list(ps: &Vec<String>) -> String { format!("[{}]", ps.iter().map(|p| show(&codes(p))).collect::<Vec<_>>().join(",")) }

const FIXED_LINES: [&str; 7] = ["[Unit]", "Description=Totalmapper", "", "[Service]", "Type=simple", "User=totalmapper", "Group=input"];
const FIXED_ARGS: [&str; 6] = ["/usr/bin/totalmapper", "remap", "--verbose", "--layout-file", "/etc/totalmapper.json", "--only-if-keyboard"];

/// Ok(()) if the unit text for these patterns reads back, by systemd's rules, as exactly the intended command line
fn check_patterns(patterns: &Vec<String>, verbose: bool) -> Result<(), String> {
  let text = crate::udev_utils::build_service_text(patterns.iter().map(|s| s.as_str()));
  let lines: Vec<&str> = text.split('\n').collect();
  if verbose { println!("unit text: {:?}", text); }
  if lines.len() != 9 || lines[8] != "" { return Err(format!("the unit text has {} lines instead of 8 (a raw line break reached the file)", lines.len() - 1)); }
  for i in 0..7 { if lines[i] != FIXED_LINES[i] { return Err(format!("line {} of the unit is {:?}, expected {:?}", i, lines[i], FIXED_LINES[i])); } }
  let exec = lines[7];
  if !exec.starts_with("ExecStart=") { return Err(format!("line 7 does not start with ExecStart=: {:?}", exec)); }
  if exec.ends_with('\\') { return Err("the ExecStart line ends in a backslash (line continuation)".to_string()); }
  let rest: Vec<char> = exec["ExecStart=".len()..].chars().collect();
  let words = match words_exec(&rest) { Some(w) => w, None => return Err(format!("systemd cannot split the line (open quote, undecodable escape or lone `;`): {:?}", exec)) };
  if verbose { println!("decoded words: {}", words.iter().map(|w| show(w)).collect::<Vec<_>>().join(" ")); }
  let mut expect: Vec<(String, Vec<u32>)> = Vec::new();
  for a in FIXED_ARGS.iter() { expect.push((a.to_string(), codes(a))); }
  for p in patterns { expect.push(("--exclude".to_string(), codes("--exclude"))); expect.push((format!("pattern {}", show(&codes(p))), codes(p))); }
  expect.push(("--dev-file".to_string(), codes("--dev-file")));
  if words.len() != expect.len() + 1 { return Err(format!("{} words on the command line, expected {}", words.len(), expect.len() + 1)); }
  for (i, (name, want)) in expect.iter().enumerate() {
    match arg_of_exec(&words[i]) {
      None => return Err(format!("word {} ({}) contains a % specifier or $ variable reference after decoding: {}", i, name, show(&words[i]))),
      Some(got) => if got != *want { return Err(format!("word {} ({}) reads back as {} instead of {}", i, name, show(&got), show(want))); }
    }
  }
  if words[words.len() - 1] != codes("/%I") { return Err(format!("the last word is {} instead of /%I", show(&words[words.len() - 1]))); }
  Ok(())
}

struct Rng(u64);
impl Rng { fn next(&mut self) -> u64 { self.0 ^= self.0 << 13; self.0 ^= self.0 >> 7; self.0 ^= self.0 << 17; self.0 } fn below(&mut self, n: u64) -> u64 { self.next() % n } }

fn main() {
  let args: Vec<String> = std::env::args().collect();
  let relevant: Vec<char> = vec!['\\', ' ', '\t', '\n', '\r', '"', '\'', '%', '$', ';', '*', '?', 'a', 's', 'x', 'u', 'U', '0', '2', '7', 'f', '{', '}', 'I', '-', '#', '\x07', '\x08', '\x0b', '\x0c', '\x1b', '\x7f', '\u{85}', '\u{a0}', '\u{e9}', '\u{2028}', '\u{1F600}'];
  if args.len() >= 2 && args[1] == "replay" {
    // replay LIST where LIST = [[cp,cp,..],[..]] (patterns as code points); or replay char CP
    if args[2] == "char" {
      let c = char::from_u32(args[3].parse().unwrap()).unwrap();
      let e: Vec<char> = crate::udev_utils::escape_one_char(c).chars().collect();
      let ok = char_ok_exec(c, &e);
      println!("escape_one_char(U+{:04X}) = {:?}; char_ok = {}", c as u32, e.iter().collect::<String>(), ok);
      std::process::exit(if ok { 0 } else { 1 });
    }
    let pats: Vec<String> = args[2].trim_matches(|c| c == '[' || c == ']').split("],[").filter(|s| !s.is_empty())
      .map(|p| p.split(',').filter(|x| !x.is_empty()).map(|x| char::from_u32(x.trim().parse().unwrap()).unwrap()).collect::<String>()).collect();
    println!("patterns: {:?}", pats);
    match check_patterns(&pats, true) { Ok(()) => { println!("NOT-REPRODUCED: the command line reads back as intended"); std::process::exit(0); }, Err(m) => { println!("REPRODUCED: {}", m); std::process::exit(1); } }
  }
  let seed: u64 = if args.len() >= 2 { args[1].parse().unwrap_or(1) } else { 1 };
  let budget: u64 = if args.len() >= 3 { args[2].parse().unwrap_or(20000) } else { 20000 };
  let t0 = std::time::Instant::now();
  let mut fails: Vec<String> = Vec::new();
  // 1. every scalar value through the real escape_one_char
  let mut n_chars: u64 = 0; let mut bad_chars: u64 = 0; let mut changed: u64 = 0;
  for u in 1u32..=0x10FFFF { if let Some(c) = char::from_u32(u) {
    n_chars += 1;
    let es = crate::udev_utils::escape_one_char(c);
    let e: Vec<char> = es.chars().collect();
    if e.len() != 1 || e[0] != c { changed += 1; }
    if !char_ok_exec(c, &e) { bad_chars += 1; if fails.len() < 8 { fails.push(format!("{{\"kind\":\"char\",\"input\":\"char {}\",\"what\":{}}}", u, jstr(&format!("escape_one_char(U+{:04X}) = {} does not read back as that character", u, es)))); } }
  } }
  // 2a. every single-scalar pattern end to end
  let mut n_single: u64 = 0; let mut bad_single: u64 = 0;
  for u in 1u32..=0x10FFFF { if let Some(c) = char::from_u32(u) {
    n_single += 1;
    let p = vec![c.to_string()];
    if let Err(m) = check_patterns(&p, false) { bad_single += 1; if fails.len() < 16 { fails.push(format!("{{\"kind\":\"patterns\",\"input\":\"{}\",\"what\":{}}}", show_list(&p), jstr(&m))); } }
  } }
  // 2b. pairs and triples over the syntax-relevant characters
  let mut n_tuples: u64 = 0; let mut bad_tuples: u64 = 0;
  for a in &relevant { for b in &relevant {
    let p = vec![format!("{}{}", a, b)]; n_tuples += 1;
    if let Err(m) = check_patterns(&p, false) { bad_tuples += 1; if fails.len() < 24 { fails.push(format!("{{\"kind\":\"patterns\",\"input\":\"{}\",\"what\":{}}}", show_list(&p), jstr(&m))); } }
    for c in &relevant {
      let p = vec![format!("{}{}{}", a, b, c)]; n_tuples += 1;
      if let Err(m) = check_patterns(&p, false) { bad_tuples += 1; if fails.len() < 24 { fails.push(format!("{{\"kind\":\"patterns\",\"input\":\"{}\",\"what\":{}}}", show_list(&p), jstr(&m))); } }
    }
  } }
  // 2c. seeded random lists of patterns
  let mut r = Rng(seed.wrapping_mul(0x9E3779B97F4A7C15) | 1);
  let mut n_rand: u64 = 0; let mut bad_rand: u64 = 0; let mut sample = String::new();
  for _ in 0..budget {
    let np = r.below(4) as usize;
    let mut ps: Vec<String> = Vec::new();
    for _ in 0..np {
      let len = 1 + r.below(8);
      let mut s = String::new();
      for _ in 0..len {
        let c = if r.below(3) == 0 { loop { if let Some(c) = char::from_u32(1 + r.below(0x10FFFF) as u32) { break c; } } } else { relevant[r.below(relevant.len() as u64) as usize] };
        s.push(c);
      }
      ps.push(s);
    }
    n_rand += 1;
    if sample.is_empty() && np > 1 { sample = show_list(&ps); }
    if let Err(m) = check_patterns(&ps, false) { bad_rand += 1; if fails.len() < 32 { fails.push(format!("{{\"kind\":\"patterns\",\"input\":\"{}\",\"what\":{}}}", show_list(&ps), jstr(&m))); } }
  }
  println!("{{\"scalars\":{},\"scalars_failing\":{},\"scalars_escaped\":{},\"single_patterns\":{},\"single_failing\":{},\"tuples\":{},\"tuples_failing\":{},\"random_lists\":{},\"random_failing\":{},\"sample\":\"{}\",\"ms\":{},\"failures\":[{}]}}",
    n_chars, bad_chars, changed, n_single, bad_single, n_tuples, bad_tuples, n_rand, bad_rand, sample, t0.elapsed().as_millis(), fails.join(","));
}
