// The universal client of the mapper (DESIGN 5, "trace layer").
//
// `universal_client` drives the REAL `Mapper` (its public API, under the
// contracts spliced into src/key_transforms.rs) with an arbitrary layout and an
// arbitrary finite sequence of operations.  It is verified like any other
// caller: only the contracts of `for_layout`, `step` and `release_all` are
// visible.  The history properties are its loop invariants and the assertions
// after each call, so they hold after every prefix of every history of every
// length, ill-formed events included.  The function is never executed.
use crate::keys::{Layout, Mapping, KeyCode, Event, Repeat, layout_ok, mapping_ok};
use crate::key_transforms::*;

pub enum Op { Ev(Event), ReleaseAll }

// physical keyboard: fold of the *input* events, tolerant of ill-formed events
pub open spec fn phys_after(p: Set<KeyCode>, op: Op) -> Set<KeyCode> {
  match op {
    Op::Ev(Event::Pressed(k)) => p.insert(k),
    Op::Ev(Event::Released(k)) => p.remove(k),
    Op::ReleaseAll => p,
  }
}

// C02(a), statement level: x is an output key of a mapping of the layout all of whose trigger keys are physically held
pub open spec fn justified_by_layout(l: Layout, phys: Set<KeyCode>, x: KeyCode) -> bool {
  exists|i: int| 0 <= i < l.mappings@.len() && (#[trigger] l.mappings@[i]).to@.contains(x) && (forall|f: KeyCode| l.mappings@[i].from@.contains(f) ==> phys.contains(f))
}

pub proof fn lemma_empty_seq_of_subset(s: Seq<KeyCode>, p: Set<KeyCode>)
  requires forall|x: KeyCode| #[trigger] s.contains(x) ==> p.contains(x), p == Set::<KeyCode>::empty()
  ensures s.len() == 0
{
  if s.len() > 0 { assert(s.contains(s[0])); }
}

//@ C01 C02 C06 C07 C19 | universal client: history-level theorems
pub fn universal_client(layout: &Layout, ops: &Vec<Op>)
  requires layout_ok(*layout)
{
  let mut m = Mapper::for_layout(layout);
  let ghost mut phys: Set<KeyCode> = Set::empty();      // what is down on the physical keyboard
  let ghost mut out: Seq<Event> = Seq::empty();         // everything written to the virtual keyboard so far
  proof { assert(apply(Set::<KeyCode>::empty(), out) == Some(m.held_view())); }
  let mut i: usize = 0;
  while i < ops.len()
    invariant
      i <= ops.len(),
      m.inv(),
      m.grouped_from(*layout),
      //@ C19 | over histories: the concatenated output stream never presses a key that is down nor releases a key that is up, and folds to the mapper's own record
      apply(Set::<KeyCode>::empty(), out) == Some(m.held_view()),
      //@ C01 C02 | history fact: what the mapper considers pressed is physically pressed
      forall|x: KeyCode| #[trigger] m.pressed_view().contains(x) ==> phys.contains(x),
      //@ C01 C06 | nothing considered pressed ==> nothing held on the virtual keyboard
      m.pressed_view().len() == 0 ==> m.held_view() == Set::<KeyCode>::empty(),
    decreases ops.len() - i
  {
    let ghost out0 = out; let ghost phys0 = phys; let ghost held0 = m.held_view();
    match &ops[i] {
      Op::Ev(e) => {
        let e1 = match e { Event::Pressed(k) => Event::Pressed(*k), Event::Released(k) => Event::Released(*k) };
        let r = m.step(e1);
        proof {
          out = out0 + r.events@;
          phys = phys_after(phys0, ops@[i as int]);
          lemma_apply_append(Set::<KeyCode>::empty(), out0, r.events@);
          //@ C02 | (c) a physical key release never causes a virtual key press
          assert(e1 is Released ==> all_released(r.events@));
          //@ C07 C02 | a batch that only releases never makes a key held again
          assert(all_released(r.events@) ==> m.held_view().subset_of(held0)) by { if all_released(r.events@) { lemma_apply_only_releases(held0, r.events@); } }
        }
      },
      Op::ReleaseAll => {
        let evs = m.release_all();
        proof {
          out = out0 + evs@;
          lemma_apply_append(Set::<KeyCode>::empty(), out0, evs@);
          //@ C06 C12 | release-all: nothing is considered pressed, nothing is held, only releases are emitted
          assert(m.pressed_view().len() == 0 && m.held_view() == Set::<KeyCode>::empty() && all_released(evs@));
        }
      },
    }
    proof {
      //@ C02 | (a) THEOREM C02(a) at this prefix: every key held on the virtual keyboard is physically held or is an output key of a layout mapping all of whose trigger keys are physically held
      assert forall|x: KeyCode| m.held_view().contains(x) implies phys.contains(x) || justified_by_layout(*layout, phys, x) by {
        m.lemma_justified(*layout, x);
        if !m.pressed_view().contains(x) {
          let i = choose|i: int| 0 <= i < layout.mappings@.len() && (#[trigger] layout.mappings@[i]).to@.contains(x) && (forall|f: KeyCode| layout.mappings@[i].from@.contains(f) ==> m.pressed_view().contains(f));
          assert forall|f: KeyCode| layout.mappings@[i].from@.contains(f) implies phys.contains(f) by { assert(m.pressed_view().contains(f)); }
        }
      }
      //@ C02 | (d) THEOREM C02(d) at this prefix: a trigger key of a mapping in effect is held on the virtual keyboard only if a mapping in effect outputs it
      assert forall|x: KeyCode, j: int| #![trigger m.held_view().contains(x), m.active_view()[j]] m.held_view().contains(x) && 0 <= j < m.active_view().len() && m.active_view()[j].from.contains(x)
        implies exists|j2: int| 0 <= j2 < m.active_view().len() && (#[trigger] m.active_view()[j2]).to.contains(x) by { m.lemma_consumed(x, j); }
      //@ C01 | THEOREM C01 at this prefix: every physical key released ==> every virtual key released (fold of the whole output stream from the empty device is empty)
      assert(phys == Set::<KeyCode>::empty() ==> apply(Set::<KeyCode>::empty(), out) == Some(Set::<KeyCode>::empty())) by {
        if phys == Set::<KeyCode>::empty() { lemma_empty_seq_of_subset(m.pressed_view(), phys); }
      }
    }
    i += 1;
  }
}
