// The universal client of the mapper (DESIGN 5, "trace layer").
//
// `universal_client` drives the REAL `Mapper` (its public API, under the
// contracts spliced into src/key_transforms.rs) with an arbitrary layout and an
// arbitrary finite sequence of operations.  It is verified like any other
// caller: only the contracts of `for_layout`, `step` and `release_all` are
// visible.  The history properties are its loop invariants and the assertions
// after each call, so they hold after every prefix of every history of every
// length, ill-formed events included.  The function is never executed.
use crate::keys::{Layout, Mapping, KeyCode, Event, Repeat, layout_ok, mapping_ok, MappingV, RepeatV, mview};
use crate::key_transforms::*;

pub enum Op { Ev(Event), ReleaseAll }

// physical keyboard: fold of the *input* events, tolerant of ill-formed events
pub open spec fn phys_after(p: Set<KeyCode>, op: Op) -> Set<KeyCode> {
  match op {
    Op::Ev(Event::Pressed(k)) => p.insert(k),
    Op::Ev(Event::Released(k)) => p.remove(k),
    Op::ReleaseAll => p,
  }
}

// C02(a), statement level: x is an output key of a mapping of the layout all of whose trigger keys are physically held
pub open spec fn justified_by_layout(l: Layout, phys: Set<KeyCode>, x: KeyCode) -> bool {
  exists|i: int| 0 <= i < l.mappings@.len() && (#[trigger] l.mappings@[i]).to@.contains(x) && (forall|f: KeyCode| l.mappings@[i].from@.contains(f) ==> phys.contains(f))
}

pub open spec fn no_absorbing(l: Layout) -> bool { forall|i: int| 0 <= i < l.mappings@.len() ==> (#[trigger] l.mappings@[i]).absorbing@.len() == 0 }

// C03, statement level (layouts without absorbing mappings): what a step must do when key k goes down while the keys `pressed` are held
pub open spec fn c03_statement(l: Layout, pressed: Seq<KeyCode>, mentioned: bool, k: KeyCode, evs: Seq<Event>, active: Seq<MappingV>, held: Set<KeyCode>) -> bool {
  match layout_fired(l.mappings@, pressed, Set::<KeyCode>::empty(), k) {
    // the last-listed mapping whose final trigger key is k and whose other trigger keys are all held takes effect ...
    Some(mv) => active.len() >= 1 && active.last() == mv && fire_post(mv, evs, held),
    // ... otherwise the key is passed through as the last event of the step, unless a mapping in effect mentions it
    None => if mentioned { evs.len() == 0 } else { evs.len() >= 1 && evs.last() == Event::Pressed(k) && held.contains(k) },
  }
}

// C08 is claimed for layouts in which every mapping with an absorbing list outputs a non-modifier key (the complementary shape is known finding D8)
pub open spec fn abs_ok(l: Layout) -> bool { forall|i: int| 0 <= i < l.mappings@.len() ==> ((#[trigger] l.mappings@[i]).absorbing@.len() > 0 ==> has_action(l.mappings@[i].to@)) }
// bookkeeping of the statement's "M was absorbed when key T fired a mapping, and has not been released or pressed again since": M |-> T
pub open spec fn dead_add(d: Map<KeyCode, KeyCode>, keys: Seq<KeyCode>, t: KeyCode) -> Map<KeyCode, KeyCode>
  decreases keys.len()
{
  if keys.len() == 0 { d } else { dead_add(d, keys.drop_last(), t).insert(keys.last(), t) }
}
pub proof fn lemma_dead_add(d: Map<KeyCode, KeyCode>, keys: Seq<KeyCode>, t: KeyCode, x: KeyCode)
  ensures dead_add(d, keys, t).contains_key(x) <==> (d.contains_key(x) || keys.contains(x)),
    keys.contains(x) ==> dead_add(d, keys, t)[x] == t, (!keys.contains(x) && d.contains_key(x)) ==> dead_add(d, keys, t)[x] == d[x]
  decreases keys.len()
{
  if keys.len() > 0 {
    lemma_dead_add(d, keys.drop_last(), t, x);
    if keys.contains(x) { let j = choose|j: int| 0 <= j < keys.len() && keys[j] == x; if j < keys.len() - 1 { assert(keys.drop_last()[j] == x); } }
    if keys.drop_last().contains(x) { let j = choose|j: int| 0 <= j < keys.drop_last().len() && keys.drop_last()[j] == x; assert(keys[j] == x); }
    assert(keys.contains(keys.last())) by { assert(keys[keys.len() - 1] == keys.last()); }
  }
}
// the state-level meaning of that bookkeeping: M does not count - it is not considered pressed any more, or it is on the absorbed list under its trigger
pub open spec fn dead_inv(m: Mapper, dead: Map<KeyCode, KeyCode>) -> bool {
  forall|x: KeyCode| #[trigger] dead.contains_key(x) ==> !m.pressed_view().contains(x) || (m.absorbed_view().contains(x) && m.absorbing_trigger_view() == Some(dead[x]))
}
pub proof fn lemma_has_action_of(to: Seq<KeyCode>, x: KeyCode)
  requires to.contains(x), !is_mod(x)
  ensures has_action(to)
{ let j = choose|j: int| 0 <= j < to.len() && to[j] == x; assert(!is_mod(to[j])); }

pub proof fn lemma_empty_seq_of_subset(s: Seq<KeyCode>, p: Set<KeyCode>)
  requires forall|x: KeyCode| #[trigger] s.contains(x) ==> p.contains(x), p == Set::<KeyCode>::empty()
  ensures s.len() == 0
{
  if s.len() > 0 { assert(s.contains(s[0])); }
}

// C02(b), statement level: x has a single-key mapping and occurs in no mapping's output
pub open spec fn single_unoutput(l: Layout, x: KeyCode) -> bool {
  (exists|i: int| 0 <= i < l.mappings@.len() && (#[trigger] l.mappings@[i]).from@.len() == 1 && l.mappings@[i].from@[0] == x)
  && (forall|i: int| 0 <= i < l.mappings@.len() ==> !(#[trigger] l.mappings@[i]).to@.contains(x))
}
// a key with a single-key mapping always fires some mapping when it goes down (the single-key mapping is supported whatever else is held or absorbed)
pub proof fn lemma_single_fires(ms: Seq<Mapping>, pressed: Seq<KeyCode>, absorbed: Set<KeyCode>, k: KeyCode)
  requires exists|i: int| 0 <= i < ms.len() && (#[trigger] ms[i]).from@.len() == 1 && ms[i].from@[0] == k
  ensures layout_fired(ms, pressed, absorbed, k) is Some
  decreases ms.len()
{
  let i = choose|i: int| 0 <= i < ms.len() && (#[trigger] ms[i]).from@.len() == 1 && ms[i].from@[0] == k;
  let m = ms.last();
  if m.from@.len() >= 1 && m.from@.last() == k && supported_set(m.from@, pressed, absorbed, k) {}
  else {
    if i == ms.len() - 1 { assert(m.from@.last() == k); assert(supported_set(m.from@, pressed, absorbed, k)); }
    else { assert(ms.drop_last()[i] == ms[i]); lemma_single_fires(ms.drop_last(), pressed, absorbed, k); }
  }
}
// a key that is down after a batch of events was down before or is pressed by an event of the batch
pub proof fn lemma_apply_origin(h: Set<KeyCode>, evs: Seq<Event>, x: KeyCode)
  requires apply(h, evs) is Some, apply(h, evs).unwrap().contains(x)
  ensures h.contains(x) || evs.contains(Event::Pressed(x))
  decreases evs.len()
{
  if evs.len() > 0 {
    let h1 = apply(h, evs.drop_last()).unwrap();
    assert(evs[evs.len() - 1] == evs.last());
    if h1.contains(x) {
      lemma_apply_origin(h, evs.drop_last(), x);
      if evs.drop_last().contains(Event::Pressed(x)) { let j = choose|j: int| 0 <= j < evs.drop_last().len() && evs.drop_last()[j] == Event::Pressed(x); assert(evs[j] == Event::Pressed(x)); }
    } else { assert(evs.last() == Event::Pressed(x)); }
  }
}
// a key that is down before a batch of events and is not released by an event of the batch is down afterwards
pub proof fn lemma_apply_stays(h: Set<KeyCode>, evs: Seq<Event>, x: KeyCode)
  requires apply(h, evs) is Some, h.contains(x), !evs.contains(Event::Released(x))
  ensures apply(h, evs).unwrap().contains(x)
  decreases evs.len()
{
  if evs.len() > 0 {
    assert(evs[evs.len() - 1] == evs.last());
    assert(!evs.drop_last().contains(Event::Released(x))) by { if evs.drop_last().contains(Event::Released(x)) { let j = choose|j: int| 0 <= j < evs.drop_last().len() && evs.drop_last()[j] == Event::Released(x); assert(evs[j] == Event::Released(x)); } }
    lemma_apply_stays(h, evs.drop_last(), x);
  }
}

//@ C01 C02 C06 C07 C19 | universal client: history-level theorems
pub fn universal_client(layout: &Layout, ops: &Vec<Op>)
  requires layout_ok(*layout)
{
  let mut m = Mapper::for_layout(layout);
  let ghost mut phys: Set<KeyCode> = Set::empty();      // what is down on the physical keyboard
  let ghost mut out: Seq<Event> = Seq::empty();         // everything written to the virtual keyboard so far
 let ghost mut dead: Map<KeyCode, KeyCode> = Map::empty();  // C08: absorbed key |-> the key whose press absorbed it
  let ghost mut ra_seen: bool = false;                    // a release-all has happened (afterwards physically held keys may be unknown to the mapper)
  proof { assert(apply(Set::<KeyCode>::empty(), out) == Some(m.held_view())); }
  let mut i: usize = 0;
  while i < ops.len()
    invariant
      i <= ops.len(),
      m.inv(),
      m.grouped_from(*layout),
      //@ C08 | history invariant (layouts in the claimed scope): a key that was absorbed and has neither been released nor pressed again does not count - it is no longer considered pressed, or it is on the absorbed list under the trigger that absorbed it
      abs_ok(*layout) ==> dead_inv(m, dead),
      //@ C03 C05 | history fact (layouts without absorbing, no release-all so far): the mapper considers exactly the physically held keys pressed
      (!ra_seen && no_absorbing(*layout)) ==> forall|x: KeyCode| phys.contains(x) ==> m.pressed_view().contains(x),
      //@ C19 | over histories: the concatenated output stream never presses a key that is down nor releases a key that is up, and folds to the mapper's own record
      apply(Set::<KeyCode>::empty(), out) == Some(m.held_view()),
      //@ C01 C02 | history fact: what the mapper considers pressed is physically pressed
      forall|x: KeyCode| #[trigger] m.pressed_view().contains(x) ==> phys.contains(x),
      //@ C01 C06 | nothing considered pressed ==> nothing held on the virtual keyboard
      m.pressed_view().len() == 0 ==> m.held_view() == Set::<KeyCode>::empty(),
      //@ C02 | (b) THEOREM C02(b) at every prefix: a key that has a single-key mapping and occurs in no mapping's output is never down on the virtual keyboard
      forall|x: KeyCode| single_unoutput(*layout, x) ==> !m.held_view().contains(x),
    decreases ops.len() - i
  { //@ | body
    let ghost out0 = out; let ghost phys0 = phys; let ghost held0 = m.held_view(); let ghost m0 = m;
    match &ops[i] {
      Op::Ev(e) => {
        let e1 = match e { Event::Pressed(k) => Event::Pressed(*k), Event::Released(k) => Event::Released(*k) };
        let ghost e1g = e1;
        let r = m.step(e1);
        proof {
          out = out0 + r.events@;
          phys = phys_after(phys0, ops@[i as int]);
          lemma_apply_append(Set::<KeyCode>::empty(), out0, r.events@);
          if no_absorbing(*layout) {
            match e1g { Event::Pressed(k) => { m0.lemma_no_absorbing(*layout, k); }, Event::Released(k) => { m0.lemma_no_absorbing(*layout, k); } }
            //@ C03 | THEOREM C03 at this step (layout without absorbing mappings, any reachable state): the last-listed mapping whose final trigger key is the pressed key and whose other trigger keys are all held takes effect; its non-modifier outputs are pressed by events of this step, its modifier outputs are held, with normal repeat the whole output is held at the end of the step; if none qualifies the key is passed through as the last event unless a mapping in effect mentions it (then nothing is emitted)
            match e1g { Event::Pressed(k) => { if !m0.pressed_view().contains(k) {
                m0.lemma_gfired(*layout, k);
                assert(c03_statement(*layout, m0.pressed_view(), m0.mentions(k), k, r.events@, m.active_view(), m.held_view()));
              } }, _ => {} }
          }
          // ---------------- C08 ----------------
          let dead0 = dead;
          match e1g {
            Event::Pressed(k) => { if !m0.pressed_view().contains(k) {
              m0.lemma_gfired(*layout, k);
              lemma_layout_fired_sound(layout.mappings@, m0.pressed_view(), m0.eff_absorbed(k), k);
              let fired = layout_fired(layout.mappings@, m0.pressed_view(), m0.eff_absorbed(k), k);
              assert(fired == m0.gfired(k));
              if abs_ok(*layout) {
                //@ C08 | THEOREM C08 (i) at this step: a press of a key other than the one that triggered the absorption fires no mapping that requires the absorbed key
                assert forall|x: KeyCode| #[trigger] dead0.contains_key(x) && x != k && dead0[x] != k && fired is Some implies !fired.unwrap().from.contains(x) by {
                  let mv = fired.unwrap();
                  if mv.from.contains(x) {
                    let j = choose|j: int| 0 <= j < mv.from.len() && mv.from[j] == x;
                    assert((m0.pressed_view().contains(mv.from[j]) && !m0.eff_absorbed(k).contains(mv.from[j])) || mv.from[j] == k);
                    m0.lemma_eff(k, x);
                  }
                }
                //@ C08 | THEOREM C08 (ii) at this step: if such a press puts a non-modifier key on the virtual keyboard, the absorbed key is not down there afterwards unless a mapping in effect outputs it
                assert forall|x: KeyCode, y: KeyCode| #![trigger dead0.contains_key(x), r.events@.contains(Event::Pressed(y))]
                  dead0.contains_key(x) && x != k && dead0[x] != k && r.events@.contains(Event::Pressed(y)) && !is_mod(y) && m.held_view().contains(x)
                  implies exists|j: int| 0 <= j < m.active_view().len() && (#[trigger] m.active_view()[j]).to.contains(x) by {
                  if m0.pressed_view().contains(x) {
                    // x was on the absorbed list under a trigger other than k: the step lifted it
                    match fired { Some(mv) => { lemma_has_action_of(mv.to, y); }, None => { assert(y == k); } }
                    assert(!m.pressed_view().contains(x));
                  }
                  m.lemma_not_pressed_held(x);
                }
              }
              //@ C08 | THEOREM C08 (iii) at this step: when the pressed key is the current absorbing trigger every held key counts (the same chord fires the same mapping again)
              assert(m0.absorbing_trigger_view() == Some(k) ==> fired == layout_fired(layout.mappings@, m0.pressed_view(), Set::<KeyCode>::empty(), k)) by {
                if m0.absorbing_trigger_view() == Some(k) { assert forall|x: KeyCode| !m0.eff_absorbed(k).contains(x) by { m0.lemma_eff(k, x); } assert(m0.eff_absorbed(k) =~= Set::<KeyCode>::empty()); }
              }
              //@ C08 | THEOREM C08 (iv) at this step: a key that is pressed again is no longer absorbed, unless the mapping it fires absorbs it anew
              assert(m.absorbed_view().contains(k) ==> fired is Some && fired.unwrap().absorbing.contains(k));
              // bookkeeping
              dead = match fired { Some(mv) => dead_add(dead0.remove(k), mv.absorbing, k), None => dead0.remove(k) };
              if abs_ok(*layout) {
                assert(dead_inv(m, dead)) by {
                  assert forall|x: KeyCode| #[trigger] dead.contains_key(x) implies !m.pressed_view().contains(x) || (m.absorbed_view().contains(x) && m.absorbing_trigger_view() == Some(dead[x])) by {
                    match fired { Some(mv) => { lemma_dead_add(dead0.remove(k), mv.absorbing, k, x); }, None => {} }
                    match fired {
                      Some(mv) => {
                        // the fired mapping is a mapping of the layout: abs_ok applies to it
                        lemma_fired_in_layout(layout.mappings@, m0.pressed_view(), m0.eff_absorbed(k), k);
                        if mv.absorbing.contains(x) { assert(mv.absorbing.len() > 0); }
                        else { assert(dead0.contains_key(x) && x != k); }
                      },
                      None => { assert(dead0.contains_key(x) && x != k); },
                    }
                  }
                }
              }
            } },
            Event::Released(k) => {
              dead = dead0.remove(k);
              if abs_ok(*layout) { assert(dead_inv(m, dead)); }
            },
          }
          //@ C07 | THEOREM C07 at this step: if the mapping that fires has Disabled or Special repeat, afterwards every key held on the virtual keyboard is a modifier, and each non-modifier output key of the mapping was pressed by an event of this step
          match e1g { Event::Pressed(k) => { if !m0.pressed_view().contains(k) {
              m0.lemma_gfired(*layout, k);
              match layout_fired(layout.mappings@, m0.pressed_view(), m0.eff_absorbed(k), k) {
                Some(mv) => { if !(mv.repeat is Normal) {
                    assert(forall|x: KeyCode| m.held_view().contains(x) ==> is_mod(x));
                    assert(forall|o: KeyCode| #[trigger] mv.to.contains(o) && !is_mod(o) ==> r.events@.contains(Event::Pressed(o)));
                  } },
                None => {},
              }
            } }, _ => {} }
          //@ C02 | (b) step: the only keys a step presses are output keys of the mapping that fires, or the pressed key itself when no mapping fires - and a key with a single-key mapping always fires one
          assert forall|x: KeyCode| single_unoutput(*layout, x) implies !m.held_view().contains(x) by {
            if m.held_view().contains(x) {
              lemma_apply_origin(held0, r.events@, x);
              assert(r.events@.contains(Event::Pressed(x)));
              match e1g {
                Event::Pressed(k) => {
                  assert(!m0.pressed_view().contains(k));
                  m0.lemma_gfired(*layout, k);
                  lemma_fired_in_layout(layout.mappings@, m0.pressed_view(), m0.eff_absorbed(k), k);
                  match m0.gfired(k) { Some(mv) => { assert(mv.to.contains(x)); }, None => { assert(x == k); lemma_single_fires(layout.mappings@, m0.pressed_view(), m0.eff_absorbed(k), k); } }
                },
                Event::Released(k) => { assert(all_released(r.events@)); },
              }
            }
          }
          //@ C02 | (c) a physical key release never causes a virtual key press
          assert(e1g is Released ==> all_released(r.events@));
          //@ C07 C02 | a batch that only releases never makes a key held again
          assert(all_released(r.events@) ==> m.held_view().subset_of(held0)) by { if all_released(r.events@) { lemma_apply_only_releases(held0, r.events@); } }
        }
      },
      Op::ReleaseAll => {
        let evs = m.release_all();
        proof {
          ra_seen = true;
          if abs_ok(*layout) { assert(dead_inv(m, dead)); }
          out = out0 + evs@;
          lemma_apply_append(Set::<KeyCode>::empty(), out0, evs@);
          assert forall|x: KeyCode| single_unoutput(*layout, x) implies !m.held_view().contains(x) by {}
          //@ C06 C12 | release-all: nothing is considered pressed, nothing is held, only releases are emitted
          assert(m.pressed_view().len() == 0 && m.held_view() == Set::<KeyCode>::empty() && all_released(evs@));
        }
      },
    }
    proof {
      //@ C02 | (a) THEOREM C02(a) at this prefix: every key held on the virtual keyboard is physically held or is an output key of a layout mapping all of whose trigger keys are physically held
      assert forall|x: KeyCode| m.held_view().contains(x) implies phys.contains(x) || justified_by_layout(*layout, phys, x) by {
        m.lemma_justified(*layout, x);
        if !m.pressed_view().contains(x) {
          let i = choose|i: int| 0 <= i < layout.mappings@.len() && (#[trigger] layout.mappings@[i]).to@.contains(x) && (forall|f: KeyCode| layout.mappings@[i].from@.contains(f) ==> m.pressed_view().contains(f));
          assert forall|f: KeyCode| layout.mappings@[i].from@.contains(f) implies phys.contains(f) by { assert(m.pressed_view().contains(f)); }
        }
      }
      //@ C02 | (d) THEOREM C02(d) at this prefix: a trigger key of a mapping in effect is held on the virtual keyboard only if a mapping in effect outputs it
      assert forall|x: KeyCode, j: int| #![trigger m.held_view().contains(x), m.active_view()[j]] m.held_view().contains(x) && 0 <= j < m.active_view().len() && m.active_view()[j].from.contains(x)
        implies exists|j2: int| 0 <= j2 < m.active_view().len() && (#[trigger] m.active_view()[j2]).to.contains(x) by { m.lemma_consumed(x, j); }
      //@ C01 | THEOREM C01 at this prefix: every physical key released ==> every virtual key released (fold of the whole output stream from the empty device is empty)
      assert(phys == Set::<KeyCode>::empty() ==> apply(Set::<KeyCode>::empty(), out) == Some(Set::<KeyCode>::empty())) by {
        if phys == Set::<KeyCode>::empty() { lemma_empty_seq_of_subset(m.pressed_view(), phys); }
      }
    }
    i += 1;
  }
}

// ============================== C05: non-interference ==============================
// x appears nowhere in the layout
pub open spec fn foreign(l: Layout, x: KeyCode) -> bool {
  forall|i: int| 0 <= i < l.mappings@.len() ==> !(#[trigger] l.mappings@[i]).from@.contains(x) && !l.mappings@[i].to@.contains(x) && !l.mappings@[i].absorbing@.contains(x)
}
// the mapping (view) mv is the only mapping of the layout that outputs x
pub open spec fn sole_output_of(l: Layout, mv: MappingV, x: KeyCode) -> bool {
  mv.to.contains(x) && forall|i: int| 0 <= i < l.mappings@.len() && (#[trigger] l.mappings@[i]).to@.contains(x) ==> mview(l.mappings@[i]) == mv
}
pub open spec fn in_effect(m: Mapper, mv: MappingV) -> bool { exists|j: int| 0 <= j < m.active_view().len() && #[trigger] m.active_view()[j] == mv }
// a batch of identical events that the device accepts has at most one element
pub proof fn lemma_apply_same(h: Set<KeyCode>, evs: Seq<Event>, e: Event)
  requires apply(h, evs) is Some, forall|j: int| 0 <= j < evs.len() ==> evs[j] == e
  ensures evs.len() <= 1
  decreases evs.len()
{
  if evs.len() >= 2 {
    let a = evs.drop_last(); let b = a.drop_last();
    assert(a.last() == e && evs.last() == e) by { assert(a[a.len() - 1] == evs[evs.len() - 2]); assert(evs[evs.len() - 1] == e); }
    let h1 = apply(h, b).unwrap(); let h2 = ev1(h1, e).unwrap();
    assert(apply(h, a) == ev1(h1, e));
    assert(ev1(h2, e) is Some);
  }
}

//@ C05 | universal client (non-interference): history-level theorems
pub fn universal_client_c05(layout: &Layout, ops: &Vec<Op>)
  requires layout_ok(*layout)
{
  let mut m = Mapper::for_layout(layout);
  let mut i: usize = 0;
  while i < ops.len()
    invariant
      i <= ops.len(),
      m.inv(),
      m.grouped_from(*layout),
      //@ C05 | empty layout, history invariant: every key the mapper considers pressed is down on the virtual keyboard
      layout.mappings@.len() == 0 ==> forall|x: KeyCode| #[trigger] m.pressed_view().contains(x) ==> m.held_view().contains(x),
    decreases ops.len() - i
  { //@ | body
    let ghost m0 = m; let ghost held0 = m.held_view();
    match &ops[i] {
      Op::Ev(e) => {
        let e1 = match e { Event::Pressed(k) => Event::Pressed(*k), Event::Released(k) => Event::Released(*k) };
        let ghost e1g = e1;
        let r = m.step(e1);
        proof {
          let key = match e1g { Event::Pressed(k) => k, Event::Released(k) => k };
          let acted = match e1g { Event::Pressed(k) => !m0.pressed_view().contains(k), Event::Released(k) => m0.pressed_view().contains(k) };
          m0.lemma_gfired(*layout, key);
          lemma_fired_in_layout(layout.mappings@, m0.pressed_view(), m0.eff_absorbed(key), key);
          lemma_layout_fired_sound(layout.mappings@, m0.pressed_view(), m0.eff_absorbed(key), key);
          let fired = m0.gfired(key);
          // ---------------- foreign keys ----------------
          //@ C05 | THEOREM C05 (foreign key, press): the press of a key that appears nowhere in the layout is forwarded as the last event of the step, and the key is down afterwards
          assert forall|x: KeyCode| foreign(*layout, x) && e1g == Event::Pressed(x) && acted implies r.events@.len() >= 1 && r.events@.last() == Event::Pressed(x) && m.held_view().contains(x) by {
            if foreign(*layout, x) && e1g == Event::Pressed(x) && acted {
              if m0.mentions(x) { /* a mapping in effect would be a layout mapping that mentions x */ lemma_mentions_layout(m0, *layout, x); }
              assert(fired is None);
            }
          }
          //@ C05 | THEOREM C05 (foreign key, stays down): a step lifts a key that appears nowhere in the layout only if it is the release of that key, or the key is a non-modifier and the step fires a mapping whose repeat is not Normal
          assert forall|x: KeyCode| foreign(*layout, x) && #[trigger] rel(r.events@, x) implies e1g == Event::Released(x) || (e1g is Pressed && acted && !is_mod(x) && fired is Some && !(fired.unwrap().repeat is Normal)) by {
            if foreign(*layout, x) && rel(r.events@, x) {
              assert(acted);
              if m0.mapped_view().contains(x) { m0.lemma_mapped(x); let j = choose|j: int| 0 <= j < m0.active_view().len() && (#[trigger] m0.active_view()[j]).to.contains(x); m0.lemma_active_in_layout(*layout, j); }
              if m0.absorbed_view().contains(x) { m0.lemma_absorbed_in_layout(*layout, x); }
              match e1g {
                Event::Pressed(k) => { assert(Mapper::lift_scope(m0, k, x)); },
                Event::Released(k) => {
                  assert(Mapper::drop_scope(m0, m, k, x));
                  if x != k { let j = choose|j: int| 0 <= j < m0.active_view().len() && (#[trigger] m0.active_view()[j]).from.contains(k) && m0.active_view()[j].to.contains(x); m0.lemma_active_in_layout(*layout, j); }
                },
              }
            }
          }
          //@ C05 | THEOREM C05 (foreign key, no spurious press): a key that appears nowhere in the layout is pressed on the virtual keyboard only by the step that handles its own physical press
          assert forall|x: KeyCode| foreign(*layout, x) && r.events@.contains(Event::Pressed(x)) implies e1g == Event::Pressed(x) by {
            if foreign(*layout, x) && r.events@.contains(Event::Pressed(x)) {
              match e1g { Event::Pressed(k) => { assert(acted); }, Event::Released(k) => { assert(all_released(r.events@)); } }
            }
          }
          //@ C05 | THEOREM C05 (foreign key, stays down): a key that is down and is not lifted by an event of the step is down afterwards
          assert forall|x: KeyCode| held0.contains(x) && !rel(r.events@, x) implies m.held_view().contains(x) by { if held0.contains(x) && !rel(r.events@, x) { lemma_apply_stays(held0, r.events@, x); } }
          // ---------------- release clause ----------------
          //@ C05 | THEOREM C05 (release clause): the release of k lifts only k itself and output keys of mappings in effect that have k in their trigger, and never a key that a mapping remaining in effect outputs
          assert forall|x: KeyCode| e1g is Released && #[trigger] rel(r.events@, x) implies Mapper::drop_scope(m0, m, key, x) by {}
          // ---------------- in-effect clauses (layouts without absorbing) ----------------
          if no_absorbing(*layout) {
            m0.lemma_no_absorbing(*layout, key);
            //@ C05 | THEOREM C05 (in-effect clauses, layouts without absorbing): while a mapping stays in effect, an output key x of it that no other mapping outputs is not lifted by presses and releases of other keys: never if x is a modifier and the mapping is a modifier-remapping (its output does not end in a non-modifier key); if the mapping has Normal repeat and outputs no modifier, only by a step that fires a mapping whose repeat is not Normal
            assert forall|mv: MappingV, x: KeyCode| #![trigger sole_output_of(*layout, mv, x), rel(r.events@, x)]
              in_effect(m0, mv) && in_effect(m, mv) && sole_output_of(*layout, mv, x) && rel(r.events@, x)
              && ((!act_map_v(mv.to) && is_mod(x)) || (mv.repeat is Normal && !has_mod(mv.to)))
              implies e1g is Pressed && acted && !is_mod(x) && fired is Some && !(fired.unwrap().repeat is Normal) by {
              let j0 = choose|j: int| 0 <= j < m0.active_view().len() && #[trigger] m0.active_view()[j] == mv;
              let j1 = choose|j: int| 0 <= j < m.active_view().len() && #[trigger] m.active_view()[j] == mv;
              assert(acted);
              match e1g {
                Event::Released(k) => { assert(Mapper::drop_scope(m0, m, k, x)); assert(m.active_view()[j1].to.contains(x)); },
                Event::Pressed(k) => {
                  assert(Mapper::lift_scope(m0, k, x));
                  m0.lemma_active_facts(j0, x);
                  if m0.passed_view().contains(x) { m0.lemma_passed(x); }
                  if ram_target_v(m0.active_view(), x) {
                    let j = choose|j: int| 0 <= j < m0.active_view().len() && act_map_v((#[trigger] m0.active_view()[j]).to) && m0.active_view()[j].to.len() > 1 && has_mod(m0.active_view()[j].to) && m0.active_view()[j].to.contains(x);
                    m0.lemma_active_in_layout(*layout, j);
                  }
                  match fired { Some(fv) => { if fv.to.contains(x) { assert(fv == mv); m0.lemma_active_facts(j0, k); } }, None => {} }
                },
              }
            }
          }
          // ---------------- empty layout ----------------
          if layout.mappings@.len() == 0 {
            if m0.active_view().len() > 0 { m0.lemma_active_in_layout(*layout, 0); }
            if m.active_view().len() > 0 { m.lemma_active_in_layout(*layout, 0); }
            if m0.absorbed_view().len() > 0 { assert(m0.absorbed_view().contains(m0.absorbed_view()[0])); m0.lemma_absorbed_in_layout(*layout, m0.absorbed_view()[0]); }
            //@ C05 | THEOREM C05 (empty layout): every event that is not ill-formed is forwarded unchanged, as the only event of its step
            assert(acted ==> r.events@ =~= seq![e1g]) by {
              if acted {
                assert forall|j: int| 0 <= j < r.events@.len() implies r.events@[j] == e1g by {
                  let ev = r.events@[j]; assert(r.events@.contains(ev));
                  match ev {
                    Event::Released(y) => { assert(rel(r.events@, y));
                      if m0.mapped_view().contains(y) { m0.lemma_mapped(y); }
                      match e1g { Event::Pressed(k) => { assert(Mapper::lift_scope(m0, k, y)); }, Event::Released(k) => { assert(Mapper::drop_scope(m0, m, k, y)); } } },
                    Event::Pressed(y) => { match e1g { Event::Pressed(k) => {}, Event::Released(k) => { assert(all_released(r.events@)); } } },
                  }
                }
                lemma_apply_same(held0, r.events@, e1g);
                match e1g {
                  Event::Pressed(k) => { if m0.mentions(k) { lemma_mentions_layout(m0, *layout, k); } },
                  Event::Released(k) => { if r.events@.len() == 0 { assert(m.held_view() == held0); assert(held0.contains(k)); m.lemma_justified(*layout, k); } },
                }
              }
            }
            assert forall|x: KeyCode| #[trigger] m.pressed_view().contains(x) implies m.held_view().contains(x) by {
              if e1g != Event::Pressed(x) || !acted { assert(m0.pressed_view().contains(x)); if acted { assert(e1g != Event::Released(x)); assert(!r.events@.contains(Event::Released(x))) by { if r.events@.contains(Event::Released(x)) { let j = choose|j: int| 0 <= j < r.events@.len() && r.events@[j] == Event::Released(x); assert(seq![e1g][j] == e1g); } } lemma_apply_stays(held0, r.events@, x); } }
            }
          }
        }
      },
      Op::ReleaseAll => {
        let evs = m.release_all();
        proof { if layout.mappings@.len() == 0 { assert forall|x: KeyCode| #[trigger] m.pressed_view().contains(x) implies m.held_view().contains(x) by { assert(m.pressed_view().len() == 0); } } }
      },
    }
    proof {
      //@ C05 | THEOREM C05 (foreign key, released): at every prefix a key that appears nowhere in the layout is down on the virtual keyboard only while the mapper considers it pressed
      assert forall|x: KeyCode| foreign(*layout, x) && m.held_view().contains(x) implies m.pressed_view().contains(x) by { if foreign(*layout, x) && m.held_view().contains(x) { m.lemma_justified(*layout, x); } }
    }
    i += 1;
  }
}
// a key that a mapping in effect mentions occurs in the layout
pub proof fn lemma_mentions_layout(m: Mapper, l: Layout, x: KeyCode)
  requires m.inv(), m.grouped_from(l), m.mentions(x)
  ensures !foreign(l, x), l.mappings@.len() > 0
{
  m.lemma_mentions_witness(x);
  let j = choose|j: int| 0 <= j < m.active_view().len() && ((#[trigger] m.active_view()[j]).to.contains(x) || m.active_view()[j].from.contains(x));
  m.lemma_active_in_layout(l, j);
}

// ============================== C04: output modifiers are exact when a mapped key goes down ==============================
// x is an output key of a modifier-remapping (a mapping whose output does not end in a non-modifier key) of the layout all of whose trigger keys are physically held
pub open spec fn held_mod_remap(l: Layout, phys: Set<KeyCode>, x: KeyCode) -> bool {
  exists|i: int| 0 <= i < l.mappings@.len() && !act_map_v((#[trigger] l.mappings@[i]).to@) && l.mappings@[i].to@.contains(x) && (forall|f: KeyCode| l.mappings@[i].from@.contains(f) ==> phys.contains(f))
}
// C04, statement level: mapping mv fires in a step that emits evs, held0 being down on the virtual keyboard and phys on the physical keyboard when the step starts
pub open spec fn c04_statement(l: Layout, phys: Set<KeyCode>, held0: Set<KeyCode>, mv: MappingV, evs: Seq<Event>) -> bool {
  forall|p: int| #![trigger evs[p]] 0 <= p < evs.len() && evs[p] == Event::Pressed(mv.to.last()) ==> (match apply(held0, evs.take(p)) {
    // at the instant the final output key is pressed (h is down) every modifier listed in the output is already down ...
    Some(h) => (forall|q: KeyCode| #[trigger] mv.to.contains(q) && is_mod(q) ==> h.contains(q))
      // ... and any other modifier that is down is physically held and not part of the trigger, or is the output of a held modifier-remapping
      && (forall|x: KeyCode| #![trigger h.contains(x)] h.contains(x) && is_mod(x) && !mv.to.contains(x) ==> (phys.contains(x) && !mv.from.contains(x)) || held_mod_remap(l, phys, x)),
    None => false })
}

//@ C04 | universal client (no stale modifiers): history-level theorem
pub fn universal_client_c04(layout: &Layout, ops: &Vec<Op>)
  requires layout_ok(*layout), no_absorbing(*layout)
{
  let mut m = Mapper::for_layout(layout);
  let ghost mut phys: Set<KeyCode> = Set::empty();
  let mut i: usize = 0;
  while i < ops.len()
    invariant
      i <= ops.len(),
      m.inv(),
      m.grouped_from(*layout),
      layout_ok(*layout), no_absorbing(*layout),
      //@ C04 | history fact: what the mapper considers pressed is physically pressed
      forall|x: KeyCode| #[trigger] m.pressed_view().contains(x) ==> phys.contains(x),
    decreases ops.len() - i
  { //@ | body
    let ghost m0 = m; let ghost held0 = m.held_view(); let ghost phys0 = phys;
    match &ops[i] {
      Op::Ev(e) => {
        let e1 = match e { Event::Pressed(k) => Event::Pressed(*k), Event::Released(k) => Event::Released(*k) };
        let ghost e1g = e1;
        let r = m.step(e1);
        proof {
          phys = phys_after(phys0, ops@[i as int]);
          match e1g {
            Event::Pressed(k) => { if !m0.pressed_view().contains(k) {
              m0.lemma_gfired(*layout, k); m0.lemma_no_absorbing(*layout, k);
              let fired = layout_fired(layout.mappings@, m0.pressed_view(), Set::<KeyCode>::empty(), k);
              assert(fired == m0.gfired(k));
              match fired { Some(mv) => { if act_map_v(mv.to) {
                  assert(Mapper::c04_instant(m0, mv, r.events@));
                  //@ C04 | THEOREM C04 at this step (layout without absorbing, any reachable state): when the mapping that fires is key-producing, at the instant its final output key is pressed on the virtual keyboard every modifier listed in its output is already down, and any other modifier down at that instant is physically held and not part of the mapping's trigger, or is the output of a held modifier-remapping
                  assert(c04_statement(*layout, phys0, held0, mv, r.events@)) by {
                    assert forall|p: int| #![trigger r.events@[p]] 0 <= p < r.events@.len() && r.events@[p] == Event::Pressed(mv.to.last()) implies (match apply(held0, r.events@.take(p)) {
                        Some(h) => (forall|q: KeyCode| #[trigger] mv.to.contains(q) && is_mod(q) ==> h.contains(q))
                          && (forall|x: KeyCode| #![trigger h.contains(x)] h.contains(x) && is_mod(x) && !mv.to.contains(x) ==> (phys0.contains(x) && !mv.from.contains(x)) || held_mod_remap(*layout, phys0, x)),
                        None => false }) by {
                      let h = apply(held0, r.events@.take(p)).unwrap();
                      assert forall|x: KeyCode| #![trigger h.contains(x)] h.contains(x) && is_mod(x) && !mv.to.contains(x) implies (phys0.contains(x) && !mv.from.contains(x)) || held_mod_remap(*layout, phys0, x) by {
                        if !(m0.pressed_view().contains(x) && !mv.from.contains(x)) {
                          assert(mod_owner_v(m0.active_view(), x));
                          let j = choose|j: int| 0 <= j < m0.active_view().len() && !act_map_v((#[trigger] m0.active_view()[j]).to) && m0.active_view()[j].to.contains(x);
                          m0.lemma_active_in_layout(*layout, j);
                          let i2 = choose|i2: int| 0 <= i2 < layout.mappings@.len() && mview(#[trigger] layout.mappings@[i2]) == m0.active_view()[j];
                          assert forall|f: KeyCode| layout.mappings@[i2].from@.contains(f) implies phys0.contains(f) by { m0.lemma_active_facts(j, f); }
                        }
                      }
                    }
                  }
                } }, None => {} }
            } },
            Event::Released(k) => {},
          }
        }
      },
      Op::ReleaseAll => {
        let evs = m.release_all();
        proof { assert forall|x: KeyCode| #[trigger] m.pressed_view().contains(x) implies phys.contains(x) by { assert(m.pressed_view().len() == 0); } }
      },
    }
    i += 1;
  }
}
