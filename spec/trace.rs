// The universal client of the mapper (DESIGN 5, "trace layer").
//
// `universal_client` drives the REAL `Mapper` (its public API, under the
// contracts spliced into src/key_transforms.rs) with an arbitrary layout and an
// arbitrary finite sequence of operations.  It is verified like any other
// caller: only the contracts of `for_layout`, `step` and `release_all` are
// visible.  The history properties are its loop invariants and the assertions
// after each call, so they hold after every prefix of every history of every
// length, ill-formed events included.  The function is never executed.
use crate::keys::{Layout, Mapping, KeyCode, Event, Repeat, layout_ok, mapping_ok, MappingV, RepeatV};
use crate::key_transforms::*;

pub enum Op { Ev(Event), ReleaseAll }

// physical keyboard: fold of the *input* events, tolerant of ill-formed events
pub open spec fn phys_after(p: Set<KeyCode>, op: Op) -> Set<KeyCode> {
  match op {
    Op::Ev(Event::Pressed(k)) => p.insert(k),
    Op::Ev(Event::Released(k)) => p.remove(k),
    Op::ReleaseAll => p,
  }
}

// C02(a), statement level: x is an output key of a mapping of the layout all of whose trigger keys are physically held
pub open spec fn justified_by_layout(l: Layout, phys: Set<KeyCode>, x: KeyCode) -> bool {
  exists|i: int| 0 <= i < l.mappings@.len() && (#[trigger] l.mappings@[i]).to@.contains(x) && (forall|f: KeyCode| l.mappings@[i].from@.contains(f) ==> phys.contains(f))
}

pub open spec fn no_absorbing(l: Layout) -> bool { forall|i: int| 0 <= i < l.mappings@.len() ==> (#[trigger] l.mappings@[i]).absorbing@.len() == 0 }

// C03, statement level (layouts without absorbing mappings): what a step must do when key k goes down while the keys `pressed` are held
pub open spec fn c03_statement(l: Layout, pressed: Seq<KeyCode>, mentioned: bool, k: KeyCode, evs: Seq<Event>, active: Seq<MappingV>, held: Set<KeyCode>) -> bool {
  match layout_fired(l.mappings@, pressed, Set::<KeyCode>::empty(), k) {
    // the last-listed mapping whose final trigger key is k and whose other trigger keys are all held takes effect ...
    Some(mv) => active.len() >= 1 && active.last() == mv && fire_post(mv, evs, held),
    // ... otherwise the key is passed through as the last event of the step, unless a mapping in effect mentions it
    None => if mentioned { evs.len() == 0 } else { evs.len() >= 1 && evs.last() == Event::Pressed(k) && held.contains(k) },
  }
}

pub proof fn lemma_empty_seq_of_subset(s: Seq<KeyCode>, p: Set<KeyCode>)
  requires forall|x: KeyCode| #[trigger] s.contains(x) ==> p.contains(x), p == Set::<KeyCode>::empty()
  ensures s.len() == 0
{
  if s.len() > 0 { assert(s.contains(s[0])); }
}

//@ C01 C02 C06 C07 C19 | universal client: history-level theorems
pub fn universal_client(layout: &Layout, ops: &Vec<Op>)
  requires layout_ok(*layout)
{
  let mut m = Mapper::for_layout(layout);
  let ghost mut phys: Set<KeyCode> = Set::empty();      // what is down on the physical keyboard
  let ghost mut out: Seq<Event> = Seq::empty();         // everything written to the virtual keyboard so far
  let ghost mut ra_seen: bool = false;                    // a release-all has happened (afterwards physically held keys may be unknown to the mapper)
  proof { assert(apply(Set::<KeyCode>::empty(), out) == Some(m.held_view())); }
  let mut i: usize = 0;
  while i < ops.len()
    invariant
      i <= ops.len(),
      m.inv(),
      m.grouped_from(*layout),
      //@ C03 C05 | history fact (layouts without absorbing, no release-all so far): the mapper considers exactly the physically held keys pressed
      (!ra_seen && no_absorbing(*layout)) ==> forall|x: KeyCode| phys.contains(x) ==> m.pressed_view().contains(x),
      //@ C19 | over histories: the concatenated output stream never presses a key that is down nor releases a key that is up, and folds to the mapper's own record
      apply(Set::<KeyCode>::empty(), out) == Some(m.held_view()),
      //@ C01 C02 | history fact: what the mapper considers pressed is physically pressed
      forall|x: KeyCode| #[trigger] m.pressed_view().contains(x) ==> phys.contains(x),
      //@ C01 C06 | nothing considered pressed ==> nothing held on the virtual keyboard
      m.pressed_view().len() == 0 ==> m.held_view() == Set::<KeyCode>::empty(),
    decreases ops.len() - i
  {
    let ghost out0 = out; let ghost phys0 = phys; let ghost held0 = m.held_view(); let ghost m0 = m;
    match &ops[i] {
      Op::Ev(e) => {
        let e1 = match e { Event::Pressed(k) => Event::Pressed(*k), Event::Released(k) => Event::Released(*k) };
        let ghost e1g = e1;
        let r = m.step(e1);
        proof {
          out = out0 + r.events@;
          phys = phys_after(phys0, ops@[i as int]);
          lemma_apply_append(Set::<KeyCode>::empty(), out0, r.events@);
          if no_absorbing(*layout) {
            match e1g { Event::Pressed(k) => { m0.lemma_no_absorbing(*layout, k); }, Event::Released(k) => { m0.lemma_no_absorbing(*layout, k); } }
            //@ C03 | THEOREM C03 at this step (layout without absorbing mappings, any reachable state): the last-listed mapping whose final trigger key is the pressed key and whose other trigger keys are all held takes effect; its non-modifier outputs are pressed by events of this step, its modifier outputs are held, with normal repeat the whole output is held at the end of the step; if none qualifies the key is passed through as the last event unless a mapping in effect mentions it (then nothing is emitted)
            match e1g { Event::Pressed(k) => { if !m0.pressed_view().contains(k) {
                m0.lemma_gfired(*layout, k);
                assert(c03_statement(*layout, m0.pressed_view(), m0.mentions(k), k, r.events@, m.active_view(), m.held_view()));
              } }, _ => {} }
          }
          //@ C07 | THEOREM C07 at this step: if the mapping that fires has Disabled or Special repeat, afterwards every key held on the virtual keyboard is a modifier, and each non-modifier output key of the mapping was pressed by an event of this step
          match e1g { Event::Pressed(k) => { if !m0.pressed_view().contains(k) {
              m0.lemma_gfired(*layout, k);
              match layout_fired(layout.mappings@, m0.pressed_view(), m0.eff_absorbed(k), k) {
                Some(mv) => { if !(mv.repeat is Normal) {
                    assert(forall|x: KeyCode| m.held_view().contains(x) ==> is_mod(x));
                    assert(forall|o: KeyCode| #[trigger] mv.to.contains(o) && !is_mod(o) ==> r.events@.contains(Event::Pressed(o)));
                  } },
                None => {},
              }
            } }, _ => {} }
          //@ C02 | (c) a physical key release never causes a virtual key press
          assert(e1g is Released ==> all_released(r.events@));
          //@ C07 C02 | a batch that only releases never makes a key held again
          assert(all_released(r.events@) ==> m.held_view().subset_of(held0)) by { if all_released(r.events@) { lemma_apply_only_releases(held0, r.events@); } }
        }
      },
      Op::ReleaseAll => {
        let evs = m.release_all();
        proof {
          ra_seen = true;
          out = out0 + evs@;
          lemma_apply_append(Set::<KeyCode>::empty(), out0, evs@);
          //@ C06 C12 | release-all: nothing is considered pressed, nothing is held, only releases are emitted
          assert(m.pressed_view().len() == 0 && m.held_view() == Set::<KeyCode>::empty() && all_released(evs@));
        }
      },
    }
    proof {
      //@ C02 | (a) THEOREM C02(a) at this prefix: every key held on the virtual keyboard is physically held or is an output key of a layout mapping all of whose trigger keys are physically held
      assert forall|x: KeyCode| m.held_view().contains(x) implies phys.contains(x) || justified_by_layout(*layout, phys, x) by {
        m.lemma_justified(*layout, x);
        if !m.pressed_view().contains(x) {
          let i = choose|i: int| 0 <= i < layout.mappings@.len() && (#[trigger] layout.mappings@[i]).to@.contains(x) && (forall|f: KeyCode| layout.mappings@[i].from@.contains(f) ==> m.pressed_view().contains(f));
          assert forall|f: KeyCode| layout.mappings@[i].from@.contains(f) implies phys.contains(f) by { assert(m.pressed_view().contains(f)); }
        }
      }
      //@ C02 | (d) THEOREM C02(d) at this prefix: a trigger key of a mapping in effect is held on the virtual keyboard only if a mapping in effect outputs it
      assert forall|x: KeyCode, j: int| #![trigger m.held_view().contains(x), m.active_view()[j]] m.held_view().contains(x) && 0 <= j < m.active_view().len() && m.active_view()[j].from.contains(x)
        implies exists|j2: int| 0 <= j2 < m.active_view().len() && (#[trigger] m.active_view()[j2]).to.contains(x) by { m.lemma_consumed(x, j); }
      //@ C01 | THEOREM C01 at this prefix: every physical key released ==> every virtual key released (fold of the whole output stream from the empty device is empty)
      assert(phys == Set::<KeyCode>::empty() ==> apply(Set::<KeyCode>::empty(), out) == Some(Set::<KeyCode>::empty())) by {
        if phys == Set::<KeyCode>::empty() { lemma_empty_seq_of_subset(m.pressed_view(), phys); }
      }
    }
    i += 1;
  }
}
